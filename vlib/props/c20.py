"""C20 — trajectory look-ups return the first row satisfying the query."""
import math

from vlib import shotgen as sg
from vlib.common import Corr, Failure, f2b, import_repo

ID = 'C20'
GENS = []
TARGETS = ['BC.Props.C20']
PROP_FILES = ['BC/Props/C20.lean']
# source ties: function bodies regenerated from the Python source by translate/t_funcs.py, proved equal to the model functions
SRC = {'module': 'BC.Props.C20Src', 'file': 'BC/Props/C20Src.lean',
       'theorems': ['C20_src_apex_loop', 'C20_src_apex_index', 'C20_src_distance_cond', 'C20_src_time_cond', 'C20_src_nearest', 'C20_src_deviation']}
THEOREMS = ['C20_scan_spec', 'C20_bisect_first_true', 'C20_distance', 'C20_time_strict', 'C20_nearest',
            'C20_nearest_deviation', 'C20_nearest_deviation_iff', 'C20_apex']
STATEMENTS = {
    'C20_src_nearest': 'SOURCE TIE (all C20_src_*): helpers.py — the apex bisection (bracket, condition, rising test, moves), the monotone conditions of the distance and strict-time look-ups, the key, neighbour comparison and deviation test of the nearest-time look-up, executed symbolically from the Python source on every run, are the pieces of apexLoop / apexIndex / findIndexForDistance / findIndexForTimeStrict / nearestIndex / findIndexForTimeNearest',
    'C20_scan_spec': 'scanFirst = -1 iff no row satisfies cond; = k iff k is the first row satisfying it',
    'C20_bisect_first_true': 'cond monotone along the rows -> bisect-based search = sequential scan (any length incl. 0, 1)',
    'C20_distance': 'non-decreasing distances (repeats allowed) -> find_index_of_point_for_distance = index_at_distance scan',
    'C20_time_strict': 'non-decreasing times -> strict time look-up = scan for first time >= t',
    'C20_nearest': 'non-decreasing times, n>0 -> result k<n minimises |time-t| and is the earliest minimiser; n=0 -> -1',
    'C20_nearest_deviation': 'allowed deviation only turns the answer into -1',
    'C20_nearest_deviation_iff': 'answer = k if |time k - t| <= dev else -1',
    'C20_apex': 'strictly increasing up to p, non-increasing after -> apex helper returns p; empty -> -1',
}
TRUSTED = [
    'Lean 4.33.0 kernel; Mathlib; axioms propext, Classical.choice, Quot.sound',
    'hand-written model BC/Model/Lookup.lean (bisect_left modelled from CPython bisect.py) tied to helpers.py / HitResult by '
    'the correspondence ops lk_* on synthetic and real trajectories (integer answers, exact)',
]
ASSUME = ['bisect.bisect_left behaves as its documented algorithm; keys are finite floats (no NaN)']
RULE = ('synthetic trajectories of length 0-40 with non-decreasing keys incl. repeated values; queries below / on / between / beyond '
        'the recorded span and on repeated values; plus real trajectories; distinct_nontrivial = distinct (keys, query) op lines of length >= 2')


def make_rows(pbc, times, dists, heights):
    U = pbc.Unit
    z = U.Foot(0)
    return [pbc.TrajectoryData(t, U.Foot(d), U.FPS(1000), 1.0, U.Foot(h), z, U.Radian(0), z, U.Radian(0), U.Foot(d), U.Radian(0), 0.0, 0.0,
                               U.FootPound(1), U.Pound(1), 8) for t, d, h in zip(times, dists, heights)]


def gen_keys(rng, n):
    """non-decreasing key list with repeats"""
    xs, x = [], rng.choice([0.0, rng.uniform(0, 5)])
    for _ in range(n):
        xs.append(x)
        r = rng.random()
        x += 0.0 if r < 0.25 else rng.choice([0.5, 1.0, rng.uniform(0, 3)])
    return xs


def queries(rng, xs):
    q = [-1.0, 0.0, rng.uniform(0, 60)]
    if xs:
        q += [xs[0], xs[-1], xs[-1] + 1.0, xs[0] - 0.5, rng.choice(xs), rng.choice(xs) + 0.25, (xs[0] + xs[-1]) / 2]
        k = rng.choice(xs)
        # "at least the requested value" is exact: one ulp, or a fraction of a thousandth, above or below a key (also the last one)
        q += [math.nextafter(k, math.inf), math.nextafter(k, -math.inf), k + 2.5e-4, k - 2.5e-4, math.nextafter(xs[-1], math.inf), xs[-1] + 1e-5]
        if len(xs) > 1:
            i = rng.randrange(len(xs) - 1)
            q.append((xs[i] + xs[i + 1]) / 2)   # a tie for the nearest variant
    return q


def fl(xs):
    return f'{len(xs)} ' + ' '.join(str(f2b(x)) for x in xs)


def correspondence(chk, drv):
    pbc = import_repo()
    from py_ballisticcalc import helpers
    U = pbc.Unit
    rng = chk.rng
    n = 150 if chk.tier == 'quick' else 6000
    cd_, ct, cn, ca = Corr('lk_dist'), Corr('lk_tstrict'), Corr('lk_tnear'), Corr('lk_apex')
    nontriv = set()
    for _ in range(n):
        ln = rng.choice([0, 1, 2, 3, rng.randint(4, 40)])
        times, dists = gen_keys(rng, ln), gen_keys(rng, ln)
        p = rng.randrange(ln) if ln else 0
        hs = [float(i) if i <= p else float(2 * p - i) + rng.choice([0.0, 0.0, 0.5]) * 0 for i in range(ln)]
        if ln and rng.random() < 0.3:  # plateau after the apex (non-increasing)
            hs = [h if i <= p else hs[p] - (i - p) // 2 for i, h in enumerate(hs)]
        hit = pbc.HitResult(None, make_rows(pbc, times, dists, hs), True)
        unit = rng.choice([U.Foot, U.Meter, U.Yard])
        keys = [r.distance >> unit for r in hit.trajectory]
        for q in queries(rng, keys):
            a = helpers.find_index_of_point_for_distance(hit, q, unit)
            b = hit.index_at_distance(unit(q))
            # index_at_distance compares raw inches; the model op gets the keys in `unit` for the bisect and we send a second
            # op line for the raw comparison
            line = f'lk_dist {f2b(q)} {fl(keys)}'
            rawq = unit(q).raw_value
            a2 = next((i for i, r in enumerate(hit.trajectory) if r.distance.raw_value >= rawq), -1)
            cd_.add(line, f'{a} {next((i for i, k in enumerate(keys) if k >= q), -1)}', {'unit': unit.name})
            cd_.add(f'lk_dist {f2b(rawq)} {fl([r.distance.raw_value for r in hit.trajectory])}', f'{a2 if False else helpers.find_index_of_point_for_distance(hit, rawq, U.Inch)} {b}')
            if ln >= 2:
                nontriv.add(line)
        for q in queries(rng, times):
            if q < 0:
                continue
            # the allowed deviation belongs to the nearest-time variant only: the strict look-up must ignore it
            sdev = rng.choice([None, 1.0, 0.0, 0.01])
            ct.add(f'lk_tstrict {f2b(q)} {fl(times)}', str(helpers.find_index_for_time_point(hit, q, True) if sdev is None
                                                          else helpers.find_index_for_time_point(hit, q, True, sdev)))
            dev = rng.choice([1.0, 0.0, 0.3, 100.0])
            try:
                ans = str(helpers.find_index_for_time_point(hit, q, False, dev))
            except IndexError:
                ans = 'err:index'
            line = f'lk_tnear {f2b(q)} {f2b(dev)} {fl(times)}'
            cn.add(line, ans)
            if ln >= 2:
                nontriv.add(line)
        ca.add(f'lk_apex {fl(hs)}', str(helpers.find_index_of_apex_in_points(hit.trajectory)))
    for c in (cd_, ct, cn, ca):
        r = c.finish(drv)
        chk.corr.append(r)
        chk.oblige(f'corr:{c.op}', 'correspondence', r['mismatch'] == 0, f"{r['cases']} cases, {r['bit_identical']} identical, {r['mismatch']} mismatches")
    chk.samples.append({'corr_op': cn.lines[5][:400], 'python': cn.py[5]})
    chk.stats['distinct_nontrivial'] = len(nontriv)


def search(chk, broken):
    """oracle = plain sequential scans written from the property text"""
    pbc = import_repo()
    from py_ballisticcalc import helpers
    U = pbc.Unit
    rng = chk.rng
    n = 150 if (chk.tier == 'quick' and not broken) else 5000
    evals = 0
    for _ in range(n):
        if chk.over():
            break
        ln = rng.choice([0, 1, 2, 3, rng.randint(4, 30)])
        times, dists = gen_keys(rng, ln), gen_keys(rng, ln)
        p = rng.randrange(ln) if ln else 0
        hs = [float(i) if i <= p else float(2 * p - i) for i in range(ln)]
        hit = pbc.HitResult(None, make_rows(pbc, times, dists, hs), True)
        shown = ''
        if rng.random() < 0.4 and ln:
            # a long-lived result whose rows have been shown in other units (the display idiom `q << unit` re-labels a quantity in place,
            # magnitudes untouched): every look-up must still answer by magnitude
            sg.scramble_units(pbc, rng, *[r for r in hit.trajectory if rng.random() < 0.6])
            shown = ' [after some rows were displayed in other units]'
        for q in queries(rng, dists):
            evals += 1
            exp = next((i for i, d in enumerate(dists) if (U.Foot(d) >> U.Foot) >= q), -1)
            got = helpers.find_index_of_point_for_distance(hit, q, U.Foot)
            got2 = hit.index_at_distance(U.Foot(q))
            exp2 = next((i for i, d in enumerate(dists) if U.Foot(d).raw_value >= U.Foot(q).raw_value), -1)
            tm = helpers.find_time_for_distance_in_shot(hit, q, U.Foot)
            ok_t = (math.isnan(tm) and exp < 0) or (exp >= 0 and tm == times[exp])
            try:
                row = hit.get_at_distance(U.Foot(q))
                ok_r = exp2 >= 0 and row is hit.trajectory[exp2]
            except ArithmeticError:
                ok_r = exp2 < 0
            if got != exp or got2 != exp2 or not ok_t or not ok_r:
                chk.failures.append(Failure('distance-lookup', f'distances {dists} query {q}{shown}: helper {got}, accessor {got2}, scan {exp}/{exp2}, time {tm}',
                                            {'op': 'distance', 'dists': dists, 'q': q, 'observed': [got, got2], 'expected': [exp, exp2]}))
        for q in queries(rng, times):
            if q < 0:
                continue
            evals += 1
            exp = next((i for i, t in enumerate(times) if t >= q), -1)
            got = helpers.find_index_for_time_point(hit, q, True)
            if got != exp:
                chk.failures.append(Failure('time-strict', f'times {times} query {q}: {got}, scan gives {exp}',
                                            {'op': 'time-strict', 'times': times, 'q': q, 'observed': got, 'expected': exp}))
            dev = rng.choice([1.0, 0.25, 50.0])
            if times:
                best = min(abs(t - q) for t in times)
                expn = next(i for i, t in enumerate(times) if abs(t - q) == best)
                if best > dev:
                    expn = -1
            else:
                expn = -1
            try:
                gotn = helpers.find_index_for_time_point(hit, q, False, dev)
            except Exception as e:  # noqa
                gotn = type(e).__name__
            if gotn != expn:
                key = 'nearest-empty' if not times else ('nearest-repeated' if len(set(times)) < len(times) else 'nearest')
                chk.failures.append(Failure(key, f'nearest-time look-up: times {times}, t={q}, deviation {dev}: returned {gotn}, '
                                                 f'earliest minimiser within the deviation is {expn}',
                                            {'op': 'time-nearest', 'times': times, 'q': q, 'dev': dev, 'observed': gotn, 'expected': expn}))
        evals += 1
        got = helpers.find_index_of_apex_in_points(hit.trajectory)
        exp = p if ln else -1
        if got != exp:
            chk.failures.append(Failure('apex', f'heights {hs}: apex helper {got}, highest row {exp}', {'op': 'apex', 'heights': hs}))
    chk.search_evals += evals
