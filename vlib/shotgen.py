"""Generation of structured, mostly-valid shots from the repo's own types, and their encoding for the model driver.

Every random choice comes from the `random.Random` passed in.  The encoder reads only *raw magnitudes of
already-constructed objects* (q.raw_value, atmo._t0, ...) so the model never sees preferred units.
"""
import contextlib
import signal
import threading

from vlib.common import f2b

OP_LIMIT = 60.0     # seconds one call of the real code may take inside a harness operation (the slowest on the unchanged tree: ~20 s)


class OpTimeout(Exception):
    pass


@contextlib.contextmanager
def time_limit(seconds=None):
    """a call into the real code that does not come back is an OUTCOME ('err:timeout'), not a hung check (main thread only)"""
    if threading.current_thread() is not threading.main_thread():
        yield
        return

    def handler(signum, frame):
        raise OpTimeout()
    old = signal.signal(signal.SIGALRM, handler)
    signal.setitimer(signal.ITIMER_REAL, seconds or OP_LIMIT)
    try:
        yield
    finally:
        signal.setitimer(signal.ITIMER_REAL, 0)
        signal.signal(signal.SIGALRM, old)

TABLE_NAMES = ['TableG1', 'TableG7', 'TableG2', 'TableG5', 'TableG6', 'TableG8', 'TableGI', 'TableGS', 'TableRA4']
CFG_FIELDS = ['max_calc_step_size_feet', 'chart_resolution', 'cZeroFindingAccuracy', 'cMinimumVelocity', 'cMaximumDrop',
              'cMaxIterations', 'cGravityConstant', 'cMinimumAltitude']


def fb(x):
    return str(f2b(float(x)))


def _curve_positive(table):
    """every parabola through three consecutive points (and the line through the first two) stays a drag coefficient (> 0.02) on the
    intervals where the solver may use it, up to Mach 8.  A random table whose fitted parabolas dip below zero is not a drag table:
    negative drag accelerates the projectile without bound (1e19 fps within three steps), and nothing the properties say is about
    such input.  Written independently of the code under test."""
    pts = [(float(p['Mach']), float(p['CD'])) for p in table]
    n = len(pts)

    def parab(i):
        (x1, y1), (x2, y2), (x3, y3) = pts[i - 1], pts[i], pts[i + 1]
        return lambda x: (y1 * (x - x2) * (x - x3) / ((x1 - x2) * (x1 - x3)) + y2 * (x - x1) * (x - x3) / ((x2 - x1) * (x2 - x3)) +
                          y3 * (x - x1) * (x - x2) / ((x3 - x1) * (x3 - x2)))
    (xa, ya), (xb, yb) = pts[0], pts[1]
    fs = [(lambda x: ya + (yb - ya) / (xb - xa) * (x - xa), 0.0, xb)]
    for i in range(1, n - 1):
        lo = pts[i - 1][0]
        hi = pts[i + 1][0] if i < n - 2 else 8.0
        fs.append((parab(i), lo, hi))
    for f, lo, hi in fs:
        for k in range(33):
            if f(lo + (hi - lo) * k / 32.0) <= 0.02:
                return False
    return True


def _custom_table(rng):
    n = rng.choice([3, 4, 6, rng.randint(8, 40)])
    xs = sorted({round(rng.uniform(0, 5), 3) for _ in range(n * 2)})[:n]
    while len(xs) < 3:
        xs.append(xs[-1] + 0.5)
    xs[0] = 0.0 if rng.random() < 0.7 else xs[0]
    xs = sorted(set(xs))
    while len(xs) < 3:
        xs.append(xs[-1] + 0.5)
    return [{'Mach': x, 'CD': round(rng.uniform(0.1, 0.6), 4)} for x in xs]


def custom_table(rng):
    for _ in range(30):
        t = _custom_table(rng)
        if _curve_positive(t):
            return t
    return [{'Mach': 0.0, 'CD': 0.3}, {'Mach': 1.0, 'CD': 0.4}, {'Mach': 2.5, 'CD': 0.3}, {'Mach': 5.0, 'CD': 0.25}]


def gen_config(rng, p_default=0.5):
    """-> dict of overrides (possibly empty)"""
    if rng.random() < p_default:
        return {}
    c = {}
    if rng.random() < 0.5:
        c['max_calc_step_size_feet'] = rng.choice([0.25, 1.0, 2.0, rng.uniform(0.2, 3.0)])
    if rng.random() < 0.2:
        c['cMinimumVelocity'] = rng.choice([0.0, 100.0, 800.0, rng.uniform(0, 1500)])
    if rng.random() < 0.2:
        c['cMaximumDrop'] = rng.choice([-10.0, -100.0, -1.0, 0.0])
    if rng.random() < 0.2:
        c['cMinimumAltitude'] = rng.choice([-10.0, 0.0, 100.0, -1410.748])
    if rng.random() < 0.15:
        c['cGravityConstant'] = rng.choice([-32.17405, -5.3, -40.0])
    if rng.random() < 0.15:
        c['cZeroFindingAccuracy'] = rng.choice([5e-6, 1e-4, 1e-3])
    if rng.random() < 0.1:
        c['cMaxIterations'] = rng.choice([5, 20, 40])
    return c


def gen_wind(pbc, rng, far=False):
    U = pbc.Unit
    v = rng.choice([0.0, rng.uniform(0, 40), rng.uniform(0, 15)])
    vu = rng.choice([U.MPH, U.MPS, U.FPS, U.KMH, U.KT])
    d = rng.choice([0.0, 90.0, 180.0, 270.0, rng.uniform(0, 360), rng.uniform(-180, 180)])
    r = rng.random()
    if r < 0.2:
        until = None
    else:
        until = rng.choice([U.Yard, U.Meter, U.Foot])(rng.choice([50.0, 100.0, 200.0, 300.0, rng.uniform(1, 1500)]))
    return pbc.Wind(vu(v), U.Degree(d), until)


def gen_shot(pbc, rng, *, flat=False, allow_cant=True, max_look=60.0, winds=None, atmo=None, table=None, mv=None):
    """-> (shot, table_dicts).  flat=True keeps it a forward, supersonic-ish rifle shot."""
    U = pbc.Unit
    if table is None:
        table = getattr(pbc, rng.choice(TABLE_NAMES)) if rng.random() < 0.8 else custom_table(rng)
    bc = rng.choice([rng.uniform(0.05, 1.2), rng.uniform(0.15, 0.6)])
    r = rng.random()
    if r < 0.45 or flat:
        dm = pbc.DragModel(bc, table, U.Grain(rng.uniform(40, 400)), U.Inch(rng.uniform(0.17, 0.5)), U.Inch(rng.uniform(0.5, 2.0)))
    elif r < 0.7:
        dm = pbc.DragModel(bc, table)
    else:
        dm = pbc.DragModel(bc, table, U.Gram(rng.uniform(3, 30)), U.Millimeter(rng.uniform(5, 13)), U.Millimeter(rng.uniform(15, 50)))
    if mv is None:
        mv = rng.uniform(1500, 3500) if (flat or rng.random() < 0.75) else rng.choice([rng.uniform(300, 1200), rng.uniform(60, 300)])
    ammo = pbc.Ammo(dm, rng.choice([U.FPS, U.MPS])(mv if rng.random() < 0.5 else mv), U.Celsius(rng.uniform(-10, 30)),
                    rng.choice([0, rng.uniform(0.001, 0.03)]), rng.random() < 0.3)
    ammo = pbc.Ammo(dm, U.FPS(mv), U.Celsius(rng.uniform(-10, 30)), rng.choice([0, rng.uniform(0.001, 0.03)]), rng.random() < 0.3)
    twist = rng.choice([0, rng.uniform(7, 14), -rng.uniform(7, 14)])
    weapon = pbc.Weapon(U.Inch(rng.choice([0.0, rng.uniform(-3, 5), rng.uniform(1, 3)])), twist,
                        U.Mil(rng.choice([0.0, rng.uniform(-2, 8)])))
    look = rng.choice([0.0, 0.0, rng.uniform(-max_look, max_look), rng.uniform(-10, 10)])
    rel = rng.choice([0.0, 0.0, rng.uniform(-0.5, 2.0)])
    cant = 0.0 if not allow_cant else rng.choice([0.0, 0.0, rng.uniform(-90, 90), rng.uniform(-5, 5)])
    if atmo is None:
        r = rng.random()
        if r < 0.3:
            atmo = pbc.Atmo.icao(U.Foot(rng.choice([0.0, rng.uniform(-1000, 12000)])))
        elif r < 0.9:
            atmo = pbc.Atmo(U.Foot(rng.uniform(-1000, 15000)), U.hPa(rng.uniform(500, 1100)), U.Celsius(rng.uniform(-60, 60)),
                            rng.choice([0.0, rng.uniform(0, 1), rng.uniform(1, 100)]),
                            rng.choice([None, U.Celsius(rng.uniform(-30, 40))]))
        else:
            atmo = pbc.Vacuum(U.Foot(rng.uniform(0, 5000)), rng.choice([None, U.Celsius(rng.uniform(-20, 40))]))
    if winds is None:
        k = rng.choice([0, 0, 1, 1, 2, 3, 4])
        winds = [gen_wind(pbc, rng) for _ in range(k)]
        if k >= 2 and rng.random() < 0.2:
            winds[1] = pbc.Wind(winds[1].velocity, winds[1].direction_from, U.Inch(winds[0].until_distance.raw_value))  # duplicate until
    shot = pbc.Shot(weapon, ammo, U.Degree(look), U.Mil(rel), U.Degree(cant), atmo, winds)
    return shot, table


def _true_table(rng, tab):
    """the user 'trues' the model's own drag table in place (the list a calculator has already seen): the coefficients from some Mach
    number upwards scaled by a few per cent - the result is still a drag table (positive), the list object is the same"""
    P = type(tab[0])
    m0 = rng.choice([0.0, 0.9, 1.0, 1.5])
    f = rng.uniform(1.02, 1.1)
    for i, p in enumerate(tab):
        if p.Mach >= m0:
            tab[i] = P(p.Mach, p.CD * f)


def edit_in_place(pbc, rng, shot):
    """the user edits an existing shot IN PLACE (assigns public attributes of the very objects a calculator has already seen);
    returns a description.  Only raw magnitudes read at call time may matter to a computation, never what an object held earlier."""
    U = pbc.Unit
    edits = []
    ws = list(shot._winds)
    if ws:
        edits += [lambda: setattr(rng.choice(ws), 'velocity', U.MPH(rng.choice([0.0, rng.uniform(0, 30)]))),
                  lambda: setattr(rng.choice(ws), 'direction_from', U.Degree(rng.choice([0.0, 90.0, 180.0, 270.0, rng.uniform(-180, 360)]))),
                  lambda: [setattr(w, 'direction_from', U.Radian(-w.direction_from.raw_value)) for w in ws],   # mirror the whole list
                  lambda: [setattr(w, 'velocity', U.MPS(0)) for w in ws],
                  # the extent of a segment edited in place: may change the ORDER in which the segments act (no wind object added or removed)
                  lambda: setattr(rng.choice(ws), 'until_distance', U.Foot(rng.choice([50.0, 400.0, rng.uniform(100, 3000)]))),
                  lambda: (len(ws) >= 2) and [setattr(a, 'until_distance', ub) or setattr(b, 'until_distance', ua)
                                             for a, b, ua, ub in [(ws[0], ws[-1], ws[0].until_distance, ws[-1].until_distance)]]]
    edits += [lambda: setattr(shot, 'look_angle', U.Degree(rng.choice([0.0, rng.uniform(-30, 30)]))),
              lambda: setattr(shot, 'relative_angle', U.Mil(rng.uniform(-1, 3))),
              lambda: setattr(shot, 'cant_angle', U.Degree(rng.choice([0.0, rng.uniform(-45, 45)]))),
              lambda: setattr(shot.weapon, 'sight_height', U.Inch(rng.uniform(0, 4))),
              lambda: setattr(shot.weapon, 'zero_elevation', U.Mil(rng.uniform(0, 6))),
              lambda: setattr(shot.weapon, 'twist', U.Inch(rng.choice([0.0, 9.0, -11.0]))),
              lambda: setattr(shot.ammo, 'mv', U.FPS(rng.uniform(1500, 3300))),
              lambda: setattr(shot.ammo, 'powder_temp', U.Celsius(rng.uniform(-10, 30))),
              lambda: setattr(shot.ammo, 'use_powder_sensitivity', not shot.ammo.use_powder_sensitivity),
              lambda: setattr(shot.ammo, 'temp_modifier', rng.choice([0.0, rng.uniform(0.001, 0.03)])),
              lambda: setattr(shot.atmo, 'humidity', rng.uniform(0, 1)),
              lambda: _true_table(rng, shot.ammo.dm.drag_table),
              lambda: setattr(shot.ammo.dm, 'BC', shot.ammo.dm.BC * rng.uniform(0.9, 1.1))]
    k = rng.randrange(len(edits))
    edits[k]()
    return k


def gen_edge_of_reach(pbc, rng):
    """a downhill shot whose aim point sits within +-12 % of where the SIGHT LINE meets one of the calculator's limits (altitude floor or
    maximum drop): just reachable or just out of reach.  -> (config overrides, shot, look-distance in ft)"""
    import math
    U = pbc.Unit
    look = -rng.uniform(15, 50)
    shot, _ = gen_shot(pbc, rng, flat=True, allow_cant=False, max_look=0.0, table=getattr(pbc, rng.choice(TABLE_NAMES)))
    shot.look_angle = U.Degree(look)
    Dc = rng.choice([600.0, 1500.0, rng.uniform(300, 2400)])          # look-distance at which the sight line meets the limit
    depth = Dc * math.sin(math.radians(-look))
    alt0 = shot.atmo.altitude >> U.Foot
    cfg = {'cMinimumAltitude': alt0 - depth} if rng.random() < 0.6 else {'cMaximumDrop': -depth}
    return cfg, shot, Dc * rng.choice([rng.uniform(0.88, 1.12), rng.uniform(1.0, 1.1), 1.05])


def gen_lob(pbc, rng):
    """a low-drag projectile lobbed at 75-88 degrees: subsonic on the way up, supersonic again in thin air on the way down,
    moving backwards in a head wind - the corners flat rifle shots never reach (several sonic crossings, vx <= 0 rows)"""
    U = pbc.Unit
    if rng.random() < 0.7:
        # the band (apex about 35-50 thousand ft) in which the projectile is subsonic at the apex, supersonic again on the way
        # down and subsonic once more in the dense air below: TWO falls through the speed of sound
        dm = pbc.DragModel(rng.uniform(2.3, 2.6), pbc.TableG7, U.Grain(rng.uniform(300, 800)), U.Inch(0.5), U.Inch(2.0))
        ammo = pbc.Ammo(dm, U.FPS(rng.uniform(2300, 2800)))
    else:
        dm = pbc.DragModel(rng.uniform(1.5, 5.0), getattr(pbc, rng.choice(['TableG1', 'TableG7'])), U.Grain(rng.uniform(300, 800)), U.Inch(0.5), U.Inch(2.0))
        ammo = pbc.Ammo(dm, U.FPS(rng.uniform(2000, 3000)))
    weapon = pbc.Weapon(U.Inch(2), rng.choice([0, 10]))
    winds = [] if rng.random() < 0.5 else [pbc.Wind(U.MPH(rng.uniform(5, 30)), U.Degree(rng.choice([0.0, 180.0, 90.0])))]
    return pbc.Shot(weapon, ammo, U.Degree(0), U.Degree(rng.uniform(76, 87)), U.Degree(0), pbc.Atmo.icao(), winds)


def enc_config(cfg):
    return ' '.join([fb(cfg.max_calc_step_size_feet), fb(cfg.chart_resolution), fb(cfg.cZeroFindingAccuracy), fb(cfg.cMinimumVelocity),
                     fb(cfg.cMaximumDrop), str(int(cfg.cMaxIterations)), fb(cfg.cGravityConstant), fb(cfg.cMinimumAltitude)])


def enc_atmo(a):
    return ' '.join(fb(x) for x in [a.altitude.raw_value, a.pressure.raw_value, a.temperature.raw_value, a.powder_temp.raw_value,
                                     a._a0, a._t0, a._p0, a._mach, a.humidity, a._density_ratio])


def enc_shot(pbc, shot):
    dm = shot.ammo.dm
    a = shot.ammo
    parts = [fb(shot.look_angle.raw_value), fb(shot.relative_angle.raw_value), fb(shot.cant_angle.raw_value),
             fb(shot.weapon.zero_elevation.raw_value), fb(shot.weapon.sight_height.raw_value), fb(shot.weapon.twist.raw_value),
             fb(dm.length.raw_value), fb(dm.diameter.raw_value), fb(dm.weight.raw_value), fb(dm.BC),
             fb(a.mv.raw_value), fb(a.powder_temp.raw_value), fb(a.temp_modifier), 'T' if a.use_powder_sensitivity else 'F',
             enc_atmo(shot.atmo)]
    ws = shot._winds   # unsorted, as given: the model sorts
    parts.append(str(len(ws)))
    for w in ws:
        parts += [fb(w.velocity.raw_value), fb(w.direction_from.raw_value), fb(w.until_distance.raw_value)]
    parts.append(fb(pbc.Wind.MAX_DISTANCE_FEET))
    parts.append(str(len(dm.drag_table)))
    for p in dm.drag_table:
        parts += [fb(p.Mach), fb(p.CD)]
    return ' '.join(parts)


ROW_Q = ['distance', 'velocity', None, 'height', 'target_drop', 'drop_adj', 'windage', 'windage_adj', 'look_distance', 'angle']


def enc_row(r):
    vals = [r.time, r.distance.raw_value, r.velocity.raw_value, r.mach, r.height.raw_value, r.target_drop.raw_value,
            r.drop_adj.raw_value, r.windage.raw_value, r.windage_adj.raw_value, r.look_distance.raw_value, r.angle.raw_value,
            r.density_factor, r.drag, r.energy.raw_value, r.ogw.raw_value]
    return ' '.join('f' + fb(v) for v in vals) + f' {int(r.flag)}'


def enc_rows(rows):
    return f'rows {len(rows)} ' + ' '.join(enc_row(r) for r in rows)


REASONS = {'Minimum velocity reached': 'minvel', 'Maximum drop reached': 'maxdrop', 'Minimum altitude reached': 'minalt'}


def py_fire(pbc, calc, shot, rng_ft, step_ft, extra, time_step):
    """runs TrajectoryCalc.trajectory on raw feet values; returns the canonical answer string"""
    U = pbc.Unit
    try:
        with time_limit():
            rows = calc._calc.trajectory(shot, U.Foot(rng_ft), U.Foot(step_ft), extra, time_step)
        return 'ok ' + enc_rows(rows)
    except OpTimeout:
        return 'err:timeout'
    except pbc.RangeError as e:
        return f'err:range {REASONS[e.reason]} ' + enc_rows(e.incomplete_trajectory)
    except ZeroDivisionError:
        return 'err:zerodiv'
    except ValueError as ex:
        return 'err:domain' if 'math domain' in str(ex) else 'err:value'


def fire_line(pbc, calc, shot, rng_ft, step_ft, extra, time_step, cfg=None):
    flags = 31 if extra else 8
    # Distance.Foot(x) >> Distance.Foot round-trips through inches: send what the solver actually receives
    U = pbc.Unit
    r = U.Foot(rng_ft) >> U.Foot
    s = U.Foot(step_ft) >> U.Foot
    return f'fire {enc_config(cfg if cfg is not None else calc._calc._config)} {enc_shot(pbc, shot)} {fb(r)} {fb(s)} {flags} {fb(time_step)}'


def scramble_units(pbc, rng, *objs, depth=3):
    """Re-label the DISPLAY unit of every quantity reachable from the given objects (q << random unit of its own dimension).
    Raw magnitudes are untouched, so no computation may change (C07, C13); used between construction and use."""
    by_dim = {}
    for u in pbc.Unit:
        by_dim.setdefault(type(u(1.0)), []).append(u)
    seen = set()

    def relabel(q):
        return q << rng.choice(by_dim[type(q)])

    def walk(o, d):
        if id(o) in seen or d < 0 or o is None:
            return
        seen.add(id(o))
        if isinstance(o, pbc.AbstractDimension):
            relabel(o)
            return
        if isinstance(o, list):
            for i, x in enumerate(o):
                if isinstance(x, pbc.AbstractDimension):
                    o[i] = relabel(x)
                else:
                    walk(x, d - 1)
            return
        if isinstance(o, tuple):
            for x in o:
                walk(x, d - 1)
            return
        if type(o).__module__.startswith('py_ballisticcalc') and hasattr(o, '__dict__'):
            for k, v in list(vars(o).items()):
                if isinstance(v, pbc.AbstractDimension):
                    if id(v) in seen:
                        continue
                    seen.add(id(v))
                    nv = relabel(v)
                    if nv is not v:          # should `convert` ever return a new object, store it where the old one was
                        try:
                            setattr(o, k, nv)
                        except Exception:  # noqa
                            pass
                else:
                    walk(v, d - 1)
    for o in objs:
        walk(o, depth)
