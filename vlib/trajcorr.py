"""Shared correspondence runs for the solver properties: `fire`, `zero`, `init` ops on generated shots."""
from collections import Counter

from vlib.common import Corr, f2b
from vlib import shotgen as sg


def corr_fire(chk, drv, pbc, n, *, label='fire', gen_kwargs=None, cfg_default=0.5, requests=None, want_extra=None):
    """n random shots through TrajectoryCalc.trajectory vs the model's `integrate` (bit-exact expected)."""
    rng = chk.rng
    U = pbc.Unit
    c = Corr(label)
    dist = Counter()
    nontriv = set()
    pool = {}          # long-used calculators, one per configuration (hidden state in a calculator would show against the stateless model)
    prev = None
    for i in range(n):
        cfg = sg.gen_config(rng, cfg_default)
        key = repr(sorted(cfg.items()))
        if key not in pool:
            pool[key] = (pbc.Calculator(_config=cfg), pbc.interface_config.create_interface_config(cfg))
        calc, cfg0 = pool[key]
        r0 = rng.random()
        if prev is not None and r0 < 0.25:
            # the same rifle and ammunition under new conditions (a user editing a shot): new atmosphere and/or winds
            shot = prev
            r1 = rng.random()
            if r1 < 0.4:
                for _e in range(rng.randint(1, 2)):
                    sg.edit_in_place(pbc, rng, shot)       # attributes of the very objects the calculator has already seen
                dist['edited-in-place'] += 1
            elif r1 < 0.75:
                shot.atmo = pbc.Atmo(U.Foot(rng.uniform(0, 9000)), U.hPa(rng.uniform(650, 1050)), U.Celsius(rng.uniform(-25, 40)), rng.uniform(0, 1))
            else:
                shot.winds = [sg.gen_wind(pbc, rng) for _ in range(rng.randint(0, 3))]
            dist['reused-shot'] += 1
        else:
            shot, _ = sg.gen_shot(pbc, rng, **(gen_kwargs(rng) if callable(gen_kwargs) else (gen_kwargs or {})))
        prev = shot
        if rng.random() < 0.4:
            sg.scramble_units(pbc, rng, shot)      # display units are not an input of any computation
            dist['display-units-scrambled'] += 1
        if requests:
            R, step, extra, ts = requests(rng)
        else:
            R = rng.choice([100.0, 300.0, 1000.0, 1500.0, rng.uniform(10, 3000)])
            step = rng.choice([R / 10, 10.0, 25.0, rng.uniform(1, 200), R])
            if rng.random() < 0.12:   # recording steps BELOW the maximum integration step (short range keeps the row count small)
                R, step = rng.choice([30.0, 60.0]), rng.choice([0.1, 0.25, 0.3, 0.45])
            extra = rng.random() < 0.4 if want_extra is None else want_extra
            ts = rng.choice([0.0, 0.0, 0.01, 0.1])
        ans = sg.py_fire(pbc, calc, shot, R, step, extra, ts)
        line = sg.fire_line(pbc, calc, shot, R, step, extra, ts, cfg0)   # cfg0: the configuration the calculator was BUILT with
        c.add(line, ans, {'range_ft': R, 'step_ft': step, 'extra': extra, 'time_step': ts, 'config': cfg,
                          'winds': len(shot._winds), 'outcome': ans[:24]})
        key = ans.split()[0] if not ans.startswith('err:range') else ' '.join(ans.split()[:2])
        dist[key] += 1
        dist['winds=%d' % len(shot._winds)] += 1
        dist['extra' if extra else 'plain'] += 1
        if ans.startswith('ok') and int(ans.split()[2]) > 2:
            nontriv.add(line)
    r = c.finish(drv)
    chk.corr.append(r)
    chk.oblige(f'corr:{label}', 'correspondence', r['mismatch'] == 0,
               f"{r['cases']} shots, {r['bit_identical']} bit-identical, {r['within_tolerance']} within tolerance, {r['mismatch']} mismatches")
    chk.stats.setdefault('distribution', {})[label] = dict(dist)
    chk.stats['distinct_nontrivial'] = chk.stats.get('distinct_nontrivial', 0) + len(nontriv)
    if c.lines:
        chk.samples.append({'corr_op': c.lines[0][:240] + ' ...', 'python': c.py[0][:160] + ' ...', 'meta': c.meta[0]})
    return r


def corr_lob(chk, drv, pbc, n, label='fire-lob'):
    """high-angle lobs of low-drag projectiles with extra data and time rows vs the model (bit-exact expected)"""
    rng = chk.rng
    c = Corr(label)
    dist = Counter()
    calc = pbc.Calculator()
    for _ in range(n):
        shot = sg.gen_lob(pbc, rng)
        R, step, ts = 60000.0, 6000.0, rng.choice([0.5, 1.0])
        ans = sg.py_fire(pbc, calc, shot, R, step, True, ts)
        c.add(sg.fire_line(pbc, calc, shot, R, step, True, ts), ans, {'lob_deg': shot.relative_angle >> pbc.Unit.Degree, 'bc': shot.ammo.dm.BC, 'outcome': ans[:24]})
        toks = ans.split()
        dist[' '.join(toks[:2]) if ans.startswith('err:range') else toks[0]] += 1
    r = c.finish(drv)
    chk.corr.append(r)
    chk.oblige(f'corr:{label}', 'correspondence', r['mismatch'] == 0,
               f"{r['cases']} lobbed shots (75-88 deg, BC 1.5-5), {r['bit_identical']} bit-identical, {r['mismatch']} mismatches")
    chk.stats.setdefault('distribution', {})[label] = {k: v for k, v in dist.items() if v}
    return r


def zero_answer(pbc, calc, shot, dist_ft):
    U = pbc.Unit
    try:
        with sg.time_limit():
            e = calc._calc.zero_angle(shot, U.Foot(dist_ft))
        return 'ok f%d' % f2b(e.raw_value)
    except sg.OpTimeout:
        return 'err:timeout'
    except pbc.ZeroFindingError as ex:
        return 'err:zero f%d %d f%d' % (f2b(ex.zero_finding_error), ex.iterations_count, f2b(ex.last_barrel_elevation.raw_value))
    except pbc.RangeError as ex:
        return f'err:range {sg.REASONS[ex.reason]} ' + sg.enc_rows(ex.incomplete_trajectory)
    except ZeroDivisionError:
        return 'err:zerodiv'
    except ValueError as ex:
        return 'err:domain' if 'math domain' in str(ex) else 'err:value'


def corr_zero(chk, drv, pbc, n, *, gen_kwargs=None, cfg_default=0.6):
    rng = chk.rng
    U = pbc.Unit
    c = Corr('zero')
    dist = Counter()
    for i in range(n):
        cfg = sg.gen_config(rng, cfg_default)
        calc = pbc.Calculator(_config=cfg)
        kw = dict(allow_cant=(rng.random() < 0.2), max_look=55)
        kw.update(gen_kwargs or {})
        shot, _ = sg.gen_shot(pbc, rng, **kw)
        D = rng.choice([100.0, 300.0, 50.0, 600.0, rng.uniform(10, 2500)])
        if rng.random() < 0.25:
            # the aim point at the edge of what the limits allow: just reachable / just out of reach
            cfg, shot, D = sg.gen_edge_of_reach(pbc, rng)
            calc = pbc.Calculator(_config=cfg)
            dist['edge-of-reach'] += 1
        ans = zero_answer(pbc, calc, shot, D)
        d = U.Foot(D) >> U.Foot
        c.add(f'zero {sg.enc_config(calc._calc._config)} {sg.enc_shot(pbc, shot)} {f2b(d)}', ans,
              {'dist_ft': D, 'look_deg': shot.look_angle >> U.Degree, 'outcome': ans[:24]})
        dist[ans.split()[0] if not ans.startswith('err:range') else ' '.join(ans.split()[:2])] += 1
    r = c.finish(drv)
    chk.corr.append(r)
    chk.oblige('corr:zero', 'correspondence', r['mismatch'] == 0,
               f"{r['cases']} zeroings, {r['bit_identical']} bit-identical, {r['mismatch']} mismatches")
    chk.stats.setdefault('distribution', {})['zero'] = dict(dist)
    chk.stats['distinct_nontrivial'] = chk.stats.get('distinct_nontrivial', 0) + sum(1 for a in c.py if a.startswith('ok'))
    if c.lines:
        chk.samples.append({'corr_op': c.lines[0][:200] + ' ...', 'python': c.py[0][:100], 'meta': c.meta[0]})
    return r


def corr_init(chk, drv, pbc, n, *, gen_kwargs=None):
    """_init_trajectory + initial state + sorted wind vectors"""
    import math
    rng = chk.rng
    U = pbc.Unit
    c = Corr('init')
    for i in range(n):
        calc = pbc.Calculator(_config=sg.gen_config(rng))
        shot, _ = sg.gen_shot(pbc, rng, **(gen_kwargs or {}))
        tc = calc._calc
        tc._init_trajectory(shot)
        be, az, mv = tc.barrel_elevation, tc.barrel_azimuth, tc.muzzle_velocity
        pos = (0.0, -tc.cant_cosine * tc.sight_height, -tc.cant_sine * tc.sight_height)
        vel = pbc.Vector(math.cos(be) * math.cos(az), math.sin(be), math.cos(be) * math.sin(az)).mul_by_const(mv)
        vals = [be, az, mv, tc.stability_coefficient, tc.alt0, tc.sight_height, tc.calc_step, *pos, vel.x, vel.y, vel.z]
        for w in shot.winds:
            v = w.vector
            vals += [w.until_distance >> U.Foot, v.x, v.y, v.z]
        c.add(f'init {sg.enc_config(tc._config)} {sg.enc_shot(pbc, shot)}', ' '.join('f%d' % f2b(float(v)) for v in vals))
    r = c.finish(drv)
    chk.corr.append(r)
    chk.oblige('corr:init', 'correspondence', r['mismatch'] == 0,
               f"{r['cases']} shots, {r['bit_identical']} bit-identical, {r['mismatch']} mismatches")
    return r
